/-
  C02 — FrameSet queries are mutually consistent views of one duplicate-free list.
-/
import GfsModel.FrameSet
import GfsSpec.Enum
import GfsSpec.WF
import GfsProofs.BlocksLemmas
import GfsProofs.ListViews
import GfsProps.C01
import GfsGen.Facts
import GfsModel.ExpectedSrc

namespace Gfs.Props.C02
open Gfs Gfs.Spec Gfs.Proofs

/-- every successfully parsed frame range has a well-formed block list -/
theorem C02_wf (txt : Bytes) (fs : FrameSet) (h : FrameSet.parse txt = .ok fs) : WF fs.blocks := by
  obtain ⟨cs, hne, hrt, hv⟩ := (C01.C01_accept_iff txt).mp ⟨fs, h⟩
  obtain ⟨fs', hfs', _, hwf⟩ := C01.C01_expand cs txt hne hrt hv
  rw [h] at hfs'
  cases hfs'
  exact hwf

/-- C02: for every successfully parsed frame range, length, enumerated frames,
    frame-at-index, index-of-frame, membership, start and end describe one duplicate-free
    list `L` — for ALL indices and ALL integers (the quantifier's windows are subsumed):
    an index outside [0,len) yields an error, a non-member yields index -1 and membership
    false.  (A frame set can be empty, e.g. "1-1y1"; start/end are the first/last member
    whenever there is one.) -/
theorem C02_views (txt : Bytes) (fs : FrameSet) (h : FrameSet.parse txt = .ok fs) :
    let L := fs.frames
    L.Nodup ∧ fs.len = L.length ∧
    (∀ i, fs.frame i = valueAt L i) ∧
    (∀ v, fs.index v = idxOf L v) ∧
    (∀ v, fs.hasFrame v = true ↔ v ∈ L) ∧
    (L ≠ [] → L.head? = some fs.start ∧ L.getLast? = some fs.fin) := by
  intro L
  have hwf := C02_wf txt fs h
  have hL : L = blocksEnum fs.blocks := blocks_iter fs.blocks hwf
  rw [hL]
  refine ⟨blocks_nodup _ hwf, blocks_len _ hwf, blocks_value _ hwf, blocks_index _ hwf,
    blocks_contains _ hwf, ?_⟩
  intro hne
  have hbne : fs.blocks ≠ [] := by
    intro hnil; apply hne; rw [hnil]; rfl
  exact ⟨blocks_start _ hwf hbne, blocks_fin _ hwf hbne⟩

/-- frame-at-index and index-of-frame are inverse bijections between [0,len) and the members -/
theorem C02_bijection (txt : Bytes) (fs : FrameSet) (h : FrameSet.parse txt = .ok fs) :
    (∀ i, 0 ≤ i → i < fs.len → ∃ v, fs.frame i = .ok v ∧ fs.index v = i) ∧
    (∀ v, fs.hasFrame v = true → 0 ≤ fs.index v ∧ fs.index v < fs.len ∧ fs.frame (fs.index v) = .ok v) := by
  obtain ⟨hnd, hlen, hval, hidx, hhas, _⟩ := C02_views txt fs h
  exact views_bijection fs.frames hnd fs.len hlen fs.frame hval fs.index hidx fs.hasFrame hhas

/-- the declarations of /repo this property's model and specification were written from are,
    on this run, the ones the model was last aligned with (digest of their comment- and
    layout-insensitive fingerprints, re-extracted by tools/gofacts) -/
theorem C02_source : Gfs.Gen.sourceDigestC02 = Gfs.expectedSourceDigestC02 := by decide

end Gfs.Props.C02
