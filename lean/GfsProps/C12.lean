/-
  C12 — setters, Copy and Split preserve everything they do not change.
-/
import GfsModel.Sequence
import GfsModel.SeqOps
import GfsSpec.Enum
import GfsProofs.SeqLemmas
import GfsProofs.SeqHist
import GfsProofs.IndexLemmas
import GfsGen.Facts
import GfsModel.ExpectedSrc

namespace Gfs.Props.C12
open Gfs Gfs.Spec Gfs.Proofs

/-- After any sequence of setter / Copy / Split calls, the string of a sequence is always
    dirname+basename+range+pad+extension of its current components. -/
theorem C12_str (s : Seq) (ops : List SeqOp) :
    (s.run ops).str =
      (s.run ops).dir ++ (s.run ops).base ++ (s.run ops).frameRange ++ (s.run ops).pad ++ (s.run ops).ext := rfl

/-- SetDirname: a directory gains a missing trailing separator ('/', or '\\' for a directory that
    contains a backslash); nothing else changes. -/
theorem C12_setDirname (s : Seq) (d : Bytes) :
    let s' := s.setDirname d
    s'.dir = (if isSuffixOf [Seq.dirSep d] d then d else d ++ [Seq.dirSep d]) ∧
    s'.base = s.base ∧ s'.ext = s.ext ∧ s'.pad = s.pad ∧ s'.zfill = s.zfill ∧
    s'.frameSet = s.frameSet ∧ s'.style = s.style := by
  simp [Seq.setDirname]

/-- SetExt: an extension gains a missing leading dot; nothing else changes. -/
theorem C12_setExt (s : Seq) (e : Bytes) :
    let s' := s.setExt e
    s'.ext = (if isPrefixOf ['.'] e then e else '.' :: e) ∧
    s'.base = s.base ∧ s'.dir = s.dir ∧ s'.pad = s.pad ∧ s'.zfill = s.zfill ∧
    s'.frameSet = s.frameSet ∧ s'.style = s.style := by
  simp [Seq.setExt]

theorem C12_setBasename (s : Seq) (b : Bytes) :
    let s' := s.setBasename b
    s'.base = b ∧ s'.ext = s.ext ∧ s'.dir = s.dir ∧ s'.pad = s.pad ∧ s'.zfill = s.zfill ∧
    s'.frameSet = s.frameSet ∧ s'.style = s.style := by
  simp [Seq.setBasename]

theorem C12_setPadding (s : Seq) (p : Bytes) :
    let s' := s.setPadding p
    s'.pad = p ∧ s'.zfill = padSize s.style p ∧ s'.base = s.base ∧ s'.ext = s.ext ∧ s'.dir = s.dir ∧
    s'.frameSet = s.frameSet ∧ s'.style = s.style := by
  simp [Seq.setPadding]

/-- a failed SetFrameRange leaves the sequence untouched; a successful one only replaces
    the frame set -/
theorem C12_setFrameRange (s : Seq) (r : Bytes) :
    (∀ e, FrameSet.parse r = .error e → s.setFrameRange r = (s, false)) ∧
    (∀ fs, FrameSet.parse r = .ok fs → s.setFrameRange r = ({ s with frameSet := some fs }, true)) := by
  constructor
  · intro e h; simp [Seq.setFrameRange, h]
  · intro fs h; simp [Seq.setFrameRange, h]

/-- frame paths follow the current components -/
theorem C12_paths_follow (s : Seq) (ops : List SeqOp) (h : (s.run ops).frameSet.isSome = true) (f : Int) :
    (s.run ops).frameInt f =
      framePath (s.run ops).dir (s.run ops).base (s.run ops).ext (s.run ops).zfill f :=
  frameInt_eq _ h f

/-- every sequence obtained from NewFileSequencePad and then changed by any history of
    SetDirname / SetBasename / SetExt / SetPadding / SetPaddingStyle / SetFrameRange (valid
    or not) / SetFrameSet(parsed) / Copy / Split has a frame set that re-creates itself from
    its range string … -/
theorem C12_history_reparses (st : PadStyle) (txt : Bytes) (s : Seq) (ops : List SeqOp)
    (h : Seq.parse st txt = .ok s) (hops : ∀ op ∈ ops, op.derived = false) :
    Seq.Reparses (s.run ops) :=
  run_reparses s ops (parse_reparses_seq st txt s h) hops

/-- … hence Copy yields a sequence with identical components, pad style and frame paths
    (as a value it is the same sequence; independence is by construction of the model:
    values are immutable) -/
theorem C12_copy (st : PadStyle) (txt : Bytes) (s : Seq) (ops : List SeqOp)
    (h : Seq.parse st txt = .ok s) (hops : ∀ op ∈ ops, op.derived = false) :
    (s.run ops).copy = s.run ops :=
  copy_eq _ (C12_history_reparses st txt s ops h hops)

/-- Split yields one sequence per comma component, each with the same dirname, basename,
    pad, pad width, pad style and extension, whose frames concatenated in order — a frame
    kept at its first occurrence, as in the original — are exactly the original's. -/
theorem C12_split (st : PadStyle) (txt : Bytes) (s : Seq) (ops : List SeqOp)
    (h : Seq.parse st txt = .ok s) (hops : ∀ op ∈ ops, op.derived = false)
    (fs : FrameSet) (hfs : (s.run ops).frameSet = some fs) :
    ((s.run ops).split).length = (splitOn ',' fs.frange).length ∧
    (∀ p ∈ (s.run ops).split, p.dir = (s.run ops).dir ∧ p.base = (s.run ops).base ∧
        p.pad = (s.run ops).pad ∧ p.zfill = (s.run ops).zfill ∧ p.style = (s.run ops).style ∧
        p.ext = (s.run ops).ext ∧ p.frameSet.isSome = true) ∧
    dedupFirst (((s.run ops).split).flatMap Seq.frames) = fs.frames :=
  split_spec _ fs hfs (C12_history_reparses st txt s ops h hops fs hfs)

/-- EVERY history — including SetFrameSet(Normalize()) and SetFrameSet(Invert()), which install
    a frame set printed from blocks — keeps the frame set well formed and such that re-creating
    it from its range string, when that succeeds, gives the same frames. -/
theorem C12_history_sound (st : PadStyle) (txt : Bytes) (s : Seq) (ops : List SeqOp)
    (h : Seq.parse st txt = .ok s) : Seq.Sound (s.run ops) :=
  run_sound s ops (parse_sound st txt s h)

/-- … hence after every history Copy has the same dirname, basename, extension, pad, pad width
    and pad style, the same range string and the same frames, the same number of frames and
    the same file path at every index (for ALL histories, no exclusion; when a printed number
    does not fit an int the re-parse fails and Copy keeps the frame set it has). -/
theorem C12_copy_any (st : PadStyle) (txt : Bytes) (s : Seq) (ops : List SeqOp)
    (h : Seq.parse st txt = .ok s) :
    let r := s.run ops
    r.copy.dir = r.dir ∧ r.copy.base = r.base ∧ r.copy.ext = r.ext ∧ r.copy.pad = r.pad ∧
    r.copy.zfill = r.zfill ∧ r.copy.style = r.style ∧
    r.copy.frameSet.map FrameSet.frames = r.frameSet.map FrameSet.frames ∧
    r.copy.frameSet.map FrameSet.frange = r.frameSet.map FrameSet.frange ∧
    r.copy.len = r.len ∧ ∀ i, r.copy.index i = r.index i := by
  intro r
  have hs := C12_history_sound st txt s ops h
  obtain ⟨h1, h2, h3, h4, h5, h6, h7, h8⟩ := copy_sound r hs
  obtain ⟨h9, h10⟩ := copy_paths r hs
  exact ⟨h1, h2, h3, h4, h5, h6, h7, h8, h9, h10⟩

/-- … and Split, after every history, whenever the range string of the current frame set parses
    (it always does unless a printed number does not fit an int): one part per comma component
    with the sequence's dirname, basename, pad, width, style and extension, whose frames
    concatenate (first occurrences) to the sequence's frames. -/
theorem C12_split_any (st : PadStyle) (txt : Bytes) (s : Seq) (ops : List SeqOp)
    (h : Seq.parse st txt = .ok s) (fs fs' : FrameSet) (hfs : (s.run ops).frameSet = some fs)
    (hp : FrameSet.parse fs.frange = .ok fs') :
    ((s.run ops).split).length = (splitOn ',' fs.frange).length ∧
    (∀ p ∈ (s.run ops).split, p.dir = (s.run ops).dir ∧ p.base = (s.run ops).base ∧
        p.pad = (s.run ops).pad ∧ p.zfill = (s.run ops).zfill ∧ p.style = (s.run ops).style ∧
        p.ext = (s.run ops).ext ∧ p.frameSet.isSome = true) ∧
    dedupFirst (((s.run ops).split).flatMap Seq.frames) = fs.frames :=
  split_sound _ (C12_history_sound st txt s ops h) fs fs' hfs hp

/-- non-vacuity: a history with both derived calls -/
example : SeqOp.derived .invertSet = true ∧ SeqOp.derived .normalize = true ∧
    (∃ s, Seq.parse .hash4 "/d/b.1-5,9#.exr".toList = .ok s) := by
  refine ⟨rfl, rfl, ?_⟩
  cases h : Seq.parse .hash4 "/d/b.1-5,9#.exr".toList with
  | ok s => exact ⟨s, rfl⟩
  | error e =>
    have : (match Seq.parse .hash4 "/d/b.1-5,9#.exr".toList with | .ok _ => true | .error _ => false) = true := by
      decide
    rw [h] at this
    cases this

theorem C12_split_no_frames (s : Seq) (h : s.frameSet = none) : s.split = [s] := split_none s h

/-- the declarations of /repo this property's model and specification were written from are,
    on this run, the ones the model was last aligned with (digest of their comment- and
    layout-insensitive fingerprints, re-extracted by tools/gofacts) -/
theorem C12_source : Gfs.Gen.sourceDigestC12 = Gfs.expectedSourceDigestC12 := by decide

end Gfs.Props.C12
