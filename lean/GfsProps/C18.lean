/-
  C18 — seqinfo reports the library's parse of each pattern, one entry per pattern.

  `Seqinfo.parse` is, by definition, the composition of the model's library setters in the
  order reformat → component overrides → inversion → index / frame selection (C03 / C12 give
  their meaning); the theorems here are about the concurrent collection.  Partial: --format
  with arbitrary templates goes through text/template (only literal text and niladic actions
  are modelled), flag parsing (go-flags) is trusted.
-/
import GfsModel.Seqinfo
import GfsModel.Expected
import GfsGen.Facts
import GfsProofs.SeqinfoLemmas
import GfsModel.ExpectedSrc

namespace Gfs.Props.C18
open Gfs Gfs.Seqinfo Gfs.Proofs

/-- one result per distinct pattern: the keys of the output map are duplicate-free and are
    exactly the patterns given -/
theorem C18_one_per_pattern (rs : List Result) :
    ((collect rs).map (·.orig)).Nodup ∧
    ∀ p, p ∈ (collect rs).map (·.orig) ↔ p ∈ rs.map (·.orig) := collect_keys rs

/-- the output content does not depend on the order in which the concurrent parses finish -/
theorem C18_order_independent (rs rs' : List Result) (hp : List.Perm rs rs')
    (hfun : ∀ r ∈ rs, ∀ r' ∈ rs, r.orig = r'.orig → r = r') (r : Result) :
    r ∈ collect rs ↔ r ∈ collect rs' := collect_order_independent rs rs' hp hfun r

/-- the entry for a pattern is the library's result for that pattern -/
theorem C18_entry (rs : List Result)
    (hfun : ∀ r ∈ rs, ∀ r' ∈ rs, r.orig = r'.orig → r = r') (r : Result) :
    r ∈ collect rs ↔ r ∈ rs := collect_entry rs hfun r

/-- a pattern that fails to parse yields an entry carrying its error, keyed by the pattern -/
theorem C18_error_entry (pat : Bytes) (o : Opts)
    (h : ∃ e, Seq.parse (if o.hash1 then PadStyle.hash1 else PadStyle.hash4) pat = .error e) :
    Seqinfo.parse pat o = some (errResult pat) := parse_error_entry pat o h

theorem C18_keyed_by_pattern (pat : Bytes) (o : Opts) (r : Result) (h : Seqinfo.parse pat o = some r) :
    r.orig = pat := parse_key pat o r h

/-- the goroutine-per-pattern / channel skeleton re-extracted from seqinfo.go on this run -/
theorem C18_skeleton : Gfs.Gen.seqinfoSkeleton = Gfs.expectedSeqinfoSkeleton := by decide

/-- the declarations of /repo this property's model and specification were written from are,
    on this run, the ones the model was last aligned with (digest of their comment- and
    layout-insensitive fingerprints, re-extracted by tools/gofacts) -/
theorem C18_source : Gfs.Gen.sourceDigestC18 = Gfs.expectedSourceDigestC18 := by decide

end Gfs.Props.C18
