/-
  C16 — independent library calls are safe to run concurrently.

  Argument: (1) `C16_no_shared_writes`: outside `init`, no function of the library writes to
  package-level state (fact re-extracted from the sources on every run); (2)
  `C16_readonly`: threads that only read shared state observe, under every interleaving,
  exactly what they observe alone, and never perform conflicting accesses.  What the model
  cannot exhibit (partial): the Go memory model, the standard library's own thread safety
  (regexp, text/template, os) and the soundness of the syntactic write extraction; these are
  exercised by the `race` operation (fresh processes built with -race, cold start).
-/
import GfsModel.Shared
import GfsModel.Expected
import GfsGen.Facts
import GfsProofs.SharedLemmas
import GfsModel.ExpectedSrc

namespace Gfs.Props.C16
open Gfs.Shared Gfs.Proofs

/-- no function outside `init` assigns to a package-level variable, or through a receiver
    of one of the shared mapper types -/
theorem C16_no_shared_writes : Gfs.Gen.sharedWrites = Gfs.expectedSharedWrites := by decide

/-- read-only threads: every schedule, any number of threads and actions -/
theorem C16_readonly (s : Sys) (sched : List Nat)
    (hro : ∀ t ∈ s.threads, ∀ a ∈ t.todo, a.isWrite = false) :
    (run s sched).mem = s.mem ∧
    (run s sched).threads.length = s.threads.length ∧
    ∀ (i : Nat) (t t' : Thread), s.threads[i]? = some t → (run s sched).threads[i]? = some t' →
      alone s.mem t' = alone s.mem t ∧ (t'.todo = [] → t'.seen = alone s.mem t) :=
  readonly_schedule_independent s sched hro

theorem C16_no_conflict (s : Sys) (sched : List Nat)
    (hro : ∀ t ∈ s.threads, ∀ a ∈ t.todo, a.isWrite = false) :
    ∀ t ∈ (run s sched).threads, ∀ a ∈ t.todo, a.isWrite = false :=
  readonly_no_conflict s sched hro

/-- the hypothesis matters: with a write (the lazily filled cache of the unrepaired code) a
    schedule exists under which a thread observes a value it would never see alone -/
theorem C16_lazy_cache_racy :
    ∃ (s : Sys) (sched : List Nat) (t' : Thread),
      (run s sched).threads[1]? = some t' ∧ t'.todo = [] ∧
      ∃ t, s.threads[1]? = some t ∧ t'.seen ≠ alone s.mem t :=
  lazy_cache_racy

/-- the declarations of /repo this property's model and specification were written from are,
    on this run, the ones the model was last aligned with (digest of their comment- and
    layout-insensitive fingerprints, re-extracted by tools/gofacts) -/
theorem C16_source : Gfs.Gen.sourceDigestC16 = Gfs.expectedSourceDigestC16 := by decide

end Gfs.Props.C16
