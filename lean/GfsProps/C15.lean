/-
  C15 — no input crashes the parsing API; IsFrameRange agrees with the parser.

  Crash freedom: every function of the model is a total Lean function whose termination
  was checked by the kernel (structural recursion, or well-founded recursion with a proved
  measure); the model has no partial operation (no `get!`, no `head!`, no division by a
  possibly-zero step: `mkRng` never stores 0, `C15_step_ne_zero`).  The Go operations that can
  panic are the slice / index expressions; each is modelled by a guarded total expression
  and the guard that makes the Go expression safe is stated below.  Whether the Go code
  really never panics is the correspondence run's `fuzz` operation (every entry point under
  `recover`), not a theorem.
-/
import GfsModel.FrameSet
import GfsModel.ListSeqs
import GfsProofs.ValidLemmas
import GfsGen.Facts
import GfsModel.ExpectedSrc

namespace Gfs.Props.C15
open Gfs Gfs.Spec Gfs.Proofs

/-- IsFrameRange(s) is true exactly when NewFrameSet(s) succeeds — every byte string. -/
theorem C15_isFrameRange (s : Bytes) :
    isFrameRange s = true ↔ ∃ fs, FrameSet.parse s = .ok fs :=
  isFrameRange_iff s

/-- no range ever holds a zero step (so `(v - start) / step` cannot divide by zero) -/
theorem C15_step_ne_zero (s e st : Int) : (mkRng s e st).step ≠ 0 := by
  unfold mkRng; simp only; split <;> (try split) <;> omega

/-- the template glob `name[len(base) : len(name)-len(ext)]` is within bounds under the guard
    the repaired code tests (D10) -/
theorem C15_glob_slice_in_bounds (base ext name : Bytes)
    (h : base.length + ext.length ≤ name.length) :
    base.length ≤ name.length - ext.length ∧ name.length - ext.length ≤ name.length := by
  omega

/-- the look-behind `baseName[len(baseName)-pos]` of the single-frame case is within bounds:
    pos is 2 only when the basename has at least two bytes, else 1 with a non-empty basename -/
theorem C15_lookbehind_in_bounds (base : Bytes) (hne : base ≠ []) :
    let pos := if isSuffixOf ['-'] base ∧ base.length ≥ 2 then 2 else 1
    1 ≤ pos ∧ pos ≤ base.length := by
  have : 0 < base.length := List.length_pos_iff.mpr hne
  simp only
  split <;> omega

/-- the declarations of /repo this property's model and specification were written from are,
    on this run, the ones the model was last aligned with (digest of their comment- and
    layout-insensitive fingerprints, re-extracted by tools/gofacts) -/
theorem C15_source : Gfs.Gen.sourceDigestC15 = Gfs.expectedSourceDigestC15 := by decide

end Gfs.Props.C15
