/-
  C20 — the exported handle table keeps an object alive exactly while referenced.
-/
import GfsModel.Handles
import GfsModel.Xorshift
import GfsModel.Expected
import GfsGen.Facts
import GfsProofs.HandlesLemmas
import GfsProofs.XorshiftLemmas
import GfsModel.ExpectedSrc

namespace Gfs.Props.C20
open Gfs.Handles Gfs.Xorshift Gfs.Proofs

/-- every handle is non-zero -/
theorem C20_nonzero (s : BitVec 64) (n : Nat) : nth s n ≠ 0#64 := nth_ne_zero s n

/-- handles are unique: a repetition at positions i < j forces the generator state back to
    its seed (period of xorshift64: 2^64 − 1, cited not proved) -/
theorem C20_unique (s : BitVec 64) (i j : Nat) (hij : i < j) (h : nth s i = nth s j) :
    nth s (j - i) = nth s 0 := nth_repeat s i j hij h

/-- the count of every created handle equals the number of references owned on it — in every
    reachable state of every interleaving of any number N of threads, any number of handles -/
theorem C20_refcount (N : Nat) (s : State) (h : Reach N s) (id : Id) (hc : s.created id = true) :
    s.cells id = sumOwned s N id := refs_eq_owned N s h id hc

/-- a handle resolves to its object while its count is positive -/
theorem C20_resolves (N : Nat) (s : State) (h : Reach N s) (id : Id)
    (hc : s.created id = true) (hp : 0 < s.cells id) : s.present id = true :=
  resolves N s h id hc hp

/-- it is removed exactly when the count reaches zero -/
theorem C20_removed_at_zero (N : Nat) (s : State) (h : Reach N s) (id : Id) :
    s.present id = true ↔
      (s.created id = true ∧ (0 < s.cells id ∨ ∃ t, t < N ∧ removing (s.pc t) id = true)) :=
  present_iff N s h id

/-- the live-object count returns to its starting value once all references are released -/
theorem C20_quiescent (N : Nat) (s : State) (h : Reach N s)
    (hidle : ∀ t, t < N → s.pc t = .idle) (hrel : ∀ t id, t < N → s.owned t id = 0) :
    ∀ id, s.present id = false := quiescent N s h hidle hrel

/-- lock discipline, successful owner lookups, no underflow -/
theorem C20_mutex (N : Nat) (s : State) (h : Reach N s) :
    (s.writer = true → s.readers = 0) ∧
    (∀ t u, t < N → u < N → inWriter (s.pc t) = true → inWriter (s.pc u) = true → t = u) ∧
    ((∃ t, t < N ∧ inWriter (s.pc t) = true) ↔ s.writer = true) ∧
    s.readers = ((List.range N).filter fun t => inReader (s.pc t)).length := mutex N s h

theorem C20_owner_ops (N : Nat) (s : State) (h : Reach N s) (t : Nat) (ht : t < N) (id : Id) :
    (∀ f, (s.pc t = .incRUnlock id f ∨ s.pc t = .decRUnlock id f) → f = true) ∧
    (s.pc t = .decAdd id → 1 ≤ s.cells id) := owner_ops_succeed N s h t ht id

/-- operations on unknown or already released handles are harmless no-ops -/
theorem C20_stale_noop (t : Table) (id : Id) (h : lookup t id = none) :
    seqStep t (.incref id) = (t, .unit) ∧ seqStep t (.decref id) = (t, .unit) ∧
    seqStep t (.get id) = (t, .found false) := stale_noop t id h

/-- the statement skeleton of both handle maps, re-extracted from storage.go on this run, is
    the one the model's actions were written from (and the two copies agree) -/
theorem C20_skeleton : Gfs.Gen.handleSkeleton = Gfs.expectedHandleSkeleton := by decide

/-- the declarations of /repo this property's model and specification were written from are,
    on this run, the ones the model was last aligned with (digest of their comment- and
    layout-insensitive fingerprints, re-extracted by tools/gofacts) -/
theorem C20_source : Gfs.Gen.sourceDigestC20 = Gfs.expectedSourceDigestC20 := by decide

end Gfs.Props.C20
