/-
  C13 — integer range containers behave exactly like their enumerated values.
  Property theorems only; proofs by reference to GfsProofs.
-/
import GfsModel.Ranges
import GfsModel.FrameSet
import GfsSpec.Enum
import GfsSpec.WF
import GfsProofs.RngLemmas
import GfsProofs.BlocksLemmas
import GfsProofs.StrParse
import GfsSpec.Grammar
import GfsGen.Facts
import GfsModel.ExpectedSrc

namespace Gfs.Props.C13
open Gfs Gfs.Spec

/-- NewInclusiveRange never stores a zero step. -/
theorem C13_mkRng_step_ne_zero (s e st : Int) : (mkRng s e st).step ≠ 0 := by
  unfold mkRng; simp only; split <;> (try split) <;> omega

/-- The hypothesis of the property: the step's sign agrees with the direction, or is zero. -/
def Agrees (s e st : Int) : Prop := st = 0 ∨ (s ≤ e ∧ 0 < st) ∨ (e ≤ s ∧ st < 0)

private theorem agrees_wellSigned (s e st : Int) (h : Agrees s e st) : WellSigned (mkRng s e st) := by
  unfold Agrees at h
  unfold WellSigned mkRng
  simp only
  rcases h with h | h | h
  · subst h
    by_cases hse : s ≤ e
    · simp [hse]
    · simp [hse]; omega
  · have : st ≠ 0 := by omega
    simp [this]; omega
  · have : st ≠ 0 := by omega
    simp [this]; omega

/-- C13 (a): for every start, end and step whose sign agrees with the direction (or is
    zero) — all integers, no bound — the range enumerates `start, start±|step|, …` up to the
    last value not past `end`, and length, effective end, min, max, membership,
    value-at-index and index-of-value all agree with that enumeration. -/
theorem C13_block (s e st : Int) (h : Agrees s e st) :
    let r := mkRng s e st
    let L := enum s e r.step.natAbs
    r.iter = L ∧ r.len = L.length ∧ L.head? = some s ∧ L.getLast? = some r.fin ∧ L.Nodup ∧
    r.min = listMin L ∧ r.max = listMax L ∧
    (∀ v, r.contains v = true ↔ v ∈ L) ∧
    (∀ i, r.value i = valueAt L i) ∧
    (∀ v, r.index v = idxOf L v) := by
  intro r L
  have hw : WellSigned r := agrees_wellSigned s e st h
  have hL : L = rngEnum r := by
    simp only [L, rngEnum, r, mkRng]
  rw [hL]
  exact ⟨Proofs.rng_iter r hw, Proofs.rng_len r hw, Proofs.rng_head r hw, Proofs.rng_fin r hw,
    Proofs.rng_nodup r hw, Proofs.rng_min r hw, Proofs.rng_max r hw,
    Proofs.rng_contains r hw, Proofs.rng_value r hw, Proofs.rng_index r hw⟩

/-- non-vacuity: a stepped descending range meets the hypothesis and enumerates as expected -/
example : Agrees 10 1 (-3) ∧ (mkRng 10 1 (-3)).iter = [10, 7, 4, 1] := by
  refine ⟨Or.inr (Or.inr ⟨by omega, by omega⟩), by decide⟩

/-- C13 (b): appending a range uniquely to a well-formed multi-range — whatever the sign of
    the step given — keeps it well formed and appends exactly the new enumeration minus
    the values already present. -/
theorem C13_append (bl : Blocks) (h : WF bl) (s e st : Int) :
    WF (Blocks.appendUnique bl s e st) ∧
    Blocks.iter (Blocks.appendUnique bl s e st) = appendU (Blocks.iter bl) s e st := by
  have h1 := Proofs.appendUnique_spec bl h s e st
  refine ⟨h1.1, ?_⟩
  rw [Proofs.blocks_iter _ h1.1, Proofs.blocks_iter _ h, h1.2]

/-- The container reached by a history of AppendUnique calls. -/
def runHist (hist : List (Int × Int × Int)) (bl : Blocks) : Blocks :=
  hist.foldl (fun bl t => Blocks.appendUnique bl t.1 t.2.1 t.2.2) bl

private theorem runHist_spec (hist : List (Int × Int × Int)) (bl : Blocks) (h : WF bl) :
    WF (runHist hist bl) ∧ Blocks.iter (runHist hist bl) = appendHist (Blocks.iter bl) hist := by
  induction hist generalizing bl with
  | nil => exact ⟨h, rfl⟩
  | cons t ts ih =>
    obtain ⟨s, e, st⟩ := t
    have h1 := C13_append bl h s e st
    have h2 := ih (Blocks.appendUnique bl s e st) h1.1
    refine ⟨h2.1, ?_⟩
    show Blocks.iter (runHist ts (Blocks.appendUnique bl s e st)) = _
    rw [h2.2, h1.2]
    rfl

/-- C13 (c): every finite history of AppendUnique calls on an empty container — any
    length, any coordinates, any step signs — yields the concatenation of the appended
    enumerations with later duplicates removed, and a well-formed container. -/
theorem C13_history (hist : List (Int × Int × Int)) :
    WF (runHist hist []) ∧ Blocks.iter (runHist hist []) = appendHist [] hist := by
  have := runHist_spec hist [] Proofs.wf_nil
  simpa [Blocks.iter] using this

/-- C13: the accessors of any container reached by such a history are views of that one
    duplicate-free list (all indices, all integers). -/
theorem C13_history_views (hist : List (Int × Int × Int)) :
    let bl := runHist hist []
    let L := appendHist [] hist
    L.Nodup ∧ Blocks.len bl = L.length ∧
    (∀ v, Blocks.contains bl v = true ↔ v ∈ L) ∧
    (∀ i, Blocks.value bl i = valueAt L i) ∧
    (∀ v, Blocks.index bl v = idxOf L v) ∧
    (bl ≠ [] → L.head? = some (Blocks.start bl) ∧ L.getLast? = some (Blocks.fin bl) ∧
       Blocks.min bl = listMin L ∧ Blocks.max bl = listMax L) := by
  intro bl L
  obtain ⟨hwf, hit⟩ := C13_history hist
  have hL : L = Proofs.blocksEnum bl := by
    rw [← Proofs.blocks_iter bl hwf]; exact hit.symm
  rw [hL]
  exact ⟨Proofs.blocks_nodup bl hwf, Proofs.blocks_len bl hwf, Proofs.blocks_contains bl hwf,
    Proofs.blocks_value bl hwf, Proofs.blocks_index bl hwf,
    fun hne => ⟨Proofs.blocks_start bl hwf hne, Proofs.blocks_fin bl hwf hne,
      Proofs.blocks_min bl hwf hne, Proofs.blocks_max bl hwf hne⟩⟩

/-- C13 (d): the printed form of any container reached by AppendUnique calls parses back,
    as a frame range, to the same values (numbers fitting an int). -/
theorem C13_print_parse (hist : List (Int × Int × Int)) (hne : runHist hist [] ≠ [])
    (hfit : ∀ r ∈ runHist hist [], Fits r.start ∧ Fits r.fin ∧ Fits r.step) :
    ∃ fs, FrameSet.parse (Blocks.str (runHist hist [])) = .ok fs ∧
      fs.frames = appendHist [] hist := by
  obtain ⟨hwf, hit⟩ := C13_history hist
  obtain ⟨fs, hp, hf⟩ := Proofs.str_parse (runHist hist []) hwf hne hfit
  refine ⟨fs, hp, ?_⟩
  rw [hf, ← Proofs.blocks_iter _ hwf]
  exact hit

/-- non-vacuity: the repaired defect D1 — a wrong-signed step after another range -/
example : Blocks.iter (runHist [(20, 20, 1), (10, 1, 2)] []) = [20, 10, 8, 6, 4, 2] := by decide

/-- the declarations of /repo this property's model and specification were written from are,
    on this run, the ones the model was last aligned with (digest of their comment- and
    layout-insensitive fingerprints, re-extracted by tools/gofacts) -/
theorem C13_source : Gfs.Gen.sourceDigestC13 = Gfs.expectedSourceDigestC13 := by decide

end Gfs.Props.C13
