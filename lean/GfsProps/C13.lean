import GfsModel.Ranges
import GfsModel.FrameSet
import GfsSpec.Enum
import GfsSpec.Denote

namespace Gfs.Props.C13
open Gfs

/-- NewInclusiveRange never stores a zero step. -/
theorem C13_mkRng_step_ne_zero (s e st : Int) : (mkRng s e st).step ≠ 0 := by
  unfold mkRng; simp only; split <;> (try split) <;> omega

end Gfs.Props.C13
