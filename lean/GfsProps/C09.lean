/-
  C09 — FramesToFrameRange is a right inverse of range parsing.
-/
import GfsModel.Compress
import GfsModel.FrameSet
import GfsSpec.Enum
import GfsSpec.Grammar
import GfsProofs.CompressLemmas
import GfsGen.Facts
import GfsModel.ExpectedSrc

namespace Gfs.Props.C09
open Gfs Gfs.Spec Gfs.Proofs

/-- C09 (sorted = false): for every non-empty list of distinct ints — any length, any mix of
    ascending, descending and constant-stride runs, negative values — and every zfill, the
    range string produced parses back to exactly that list, in the given order.
    (`hfit`: the values and their pairwise differences fit an int, as the Go code needs.) -/
theorem C09_roundtrip (l : List Int) (z : Int) (hne : l ≠ []) (hnd : l.Nodup)
    (hfit : ∀ a ∈ l, ∀ b ∈ l, Fits a ∧ Fits (a - b)) :
    ∃ fs, FrameSet.parse (framesToFrameRange l false z) = .ok fs ∧ fs.frames = l :=
  f2r_roundtrip l z hne hnd hfit

/-- C09 (sorted = true): … parses back to the list in ascending order. -/
theorem C09_sorted (l : List Int) (z : Int) (hne : l ≠ []) (hnd : l.Nodup)
    (hfit : ∀ a ∈ l, ∀ b ∈ l, Fits a ∧ Fits (a - b)) :
    ∃ fs, FrameSet.parse (framesToFrameRange l true z) = .ok fs ∧ fs.frames = sortedSet l :=
  f2r_sorted l z hne hnd hfit

/-- with zfill ≥ 2 every number written is zero-padded to at least that width -/
theorem C09_zfill (f z : Int) (h : 2 ≤ z) : z ≤ (zfillInt f z).length :=
  zfillInt_length f z h

/-- every number written is a numeral of the grammar with the right value -/
theorem C09_numeral (f z : Int) : NumText f (zfillInt f z) := zfillInt_numText f z

/-- the empty list gives the empty string -/
theorem C09_empty (s : Bool) (z : Int) : framesToFrameRange [] s z = [] := f2r_nil s z

/-- non-vacuity: the hypotheses are satisfiable by a descending stride (the repaired D4) -/
example : ∃ fs, FrameSet.parse (framesToFrameRange [10, 8, 6] false 0) = .ok fs ∧ fs.frames = [10, 8, 6] :=
  C09_roundtrip [10, 8, 6] 0 (by simp) (by decide) (by
    intro a ha b hb
    simp at ha hb
    rcases ha with rfl | rfl | rfl <;> rcases hb with rfl | rfl | rfl <;>
      (unfold Fits minInt64 maxInt64; omega))

/-- the declarations of /repo this property's model and specification were written from are,
    on this run, the ones the model was last aligned with (digest of their comment- and
    layout-insensitive fingerprints, re-extracted by tools/gofacts) -/
theorem C09_source : Gfs.Gen.sourceDigestC09 = Gfs.expectedSourceDigestC09 := by decide

end Gfs.Props.C09
