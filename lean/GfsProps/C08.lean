/-
  C08 — Normalize is the sorted set; Invert is its complement within [min,max].
-/
import GfsModel.FrameSet
import GfsSpec.Enum
import GfsSpec.WF
import GfsSpec.Grammar
import GfsProofs.BlocksLemmas
import GfsProofs.NormLemmas
import GfsProofs.StrParse
import GfsProps.C02
import GfsGen.Facts
import GfsModel.ExpectedSrc

namespace Gfs.Props.C08
open Gfs Gfs.Spec Gfs.Proofs

private theorem invert_blocks (fs : FrameSet) : fs.invert.blocks = Blocks.normalized fs.blocks true := rfl
private theorem invert_frange (fs : FrameSet) : fs.invert.frange = Blocks.str (Blocks.normalized fs.blocks true) := rfl
private theorem normalize_blocks (fs : FrameSet) : fs.normalize.blocks = Blocks.normalized fs.blocks false := rfl
private theorem normalize_frange (fs : FrameSet) : fs.normalize.frange = Blocks.str (Blocks.normalized fs.blocks false) := rfl
private theorem frames_def (fs : FrameSet) : fs.frames = Blocks.iter fs.blocks := rfl

private theorem blocks_ne_of_frames_ne (fs : FrameSet) (hne : fs.frames ≠ []) : fs.blocks ≠ [] := by
  intro h; apply hne; show Blocks.iter fs.blocks = []; rw [h]; rfl

/-- C08 (Normalize): for every accepted range string that denotes at least one frame, the
    normalized frame set has the same members in ascending order without duplicates. -/
theorem C08_normalize (txt : Bytes) (fs : FrameSet) (h : FrameSet.parse txt = .ok fs)
    (hne : fs.frames ≠ []) :
    fs.normalize.frames = sortedSet fs.frames ∧ WF fs.normalize.blocks := by
  have hwf := C02.C02_wf txt fs h
  have hb := blocks_ne_of_frames_ne fs hne
  obtain ⟨hwf', hen⟩ := normalized_sorted fs.blocks hwf hb
  refine ⟨?_, hwf'⟩
  show Blocks.iter (Blocks.normalized fs.blocks false) = sortedSet (Blocks.iter fs.blocks)
  rw [blocks_iter _ hwf', blocks_iter _ hwf, hen]

/-- C08 (Invert): exactly the integers between the smallest and largest member that are
    not members (the empty list when there are none). -/
theorem C08_invert (txt : Bytes) (fs : FrameSet) (h : FrameSet.parse txt = .ok fs)
    (hne : fs.frames ≠ []) :
    fs.invert.frames = complement fs.frames ∧ WF fs.invert.blocks := by
  have hwf := C02.C02_wf txt fs h
  have hb := blocks_ne_of_frames_ne fs hne
  obtain ⟨hwf', hen⟩ := normalized_complement fs.blocks hwf hb
  refine ⟨?_, hwf'⟩
  show Blocks.iter (Blocks.normalized fs.blocks true) = complement (Blocks.iter fs.blocks)
  rw [blocks_iter _ hwf', blocks_iter _ hwf, hen]

/-- The members of the complement are strictly between min and max and not members. -/
theorem C08_invert_members (txt : Bytes) (fs : FrameSet) (h : FrameSet.parse txt = .ok fs)
    (hne : fs.frames ≠ []) (v : Int) :
    v ∈ fs.invert.frames ↔ (listMin fs.frames ≤ v ∧ v ≤ listMax fs.frames ∧ v ∉ fs.frames) := by
  rw [(C08_invert txt fs h hne).1]; exact mem_complement fs.frames v

/-- The range string Normalize produces re-parses to the same list (numbers fitting an int). -/
theorem C08_reparse_normalize (txt : Bytes) (fs : FrameSet) (h : FrameSet.parse txt = .ok fs)
    (hne : fs.frames ≠ [])
    (hfit : ∀ r ∈ fs.normalize.blocks, Fits r.start ∧ Fits r.fin ∧ Fits r.step) :
    ∃ fs', FrameSet.parse fs.normalize.frange = .ok fs' ∧ fs'.frames = sortedSet fs.frames := by
  obtain ⟨hfr, hwf'⟩ := C08_normalize txt fs h hne
  have hne' : fs.normalize.blocks ≠ [] := by
    intro hnil
    have : fs.normalize.frames = [] := by show Blocks.iter fs.normalize.blocks = []; rw [hnil]; rfl
    rw [hfr] at this
    have hm : ∀ v, v ∈ sortedSet fs.frames ↔ v ∈ fs.frames := mem_sortedSet fs.frames
    cases hL : fs.frames with
    | nil => exact hne hL
    | cons a t =>
      have : a ∈ sortedSet fs.frames := (hm a).mpr (by rw [hL]; simp)
      simp_all
  obtain ⟨fs', hp, hf⟩ := str_parse fs.normalize.blocks hwf' hne' hfit
  refine ⟨fs', hp, ?_⟩
  rw [hf, ← blocks_iter _ hwf']
  exact hfr

/-- The range string Invert produces re-parses to the complement … -/
theorem C08_reparse_invert (txt : Bytes) (fs : FrameSet) (h : FrameSet.parse txt = .ok fs)
    (hne : fs.frames ≠ [])
    (hfit : ∀ r ∈ fs.invert.blocks, Fits r.start ∧ Fits r.fin ∧ Fits r.step)
    (hne' : fs.invert.blocks ≠ []) :
    ∃ fs', FrameSet.parse fs.invert.frange = .ok fs' ∧ fs'.frames = complement fs.frames := by
  obtain ⟨hfr, hwf'⟩ := C08_invert txt fs h hne
  obtain ⟨fs', hp, hf⟩ := str_parse fs.invert.blocks hwf' hne' hfit
  refine ⟨fs', hp, ?_⟩
  rw [hf, ← blocks_iter _ hwf']
  exact hfr

/-- … and is the empty range when there are no such integers. -/
theorem C08_invert_empty (txt : Bytes) (fs : FrameSet) (h : FrameSet.parse txt = .ok fs)
    (hne : fs.frames ≠ []) (hc : complement fs.frames = []) :
    fs.invert.frange = [] := by
  obtain ⟨hfr, hwf'⟩ := C08_invert txt fs h hne
  have hb : fs.invert.blocks = [] := by
    cases hbl : fs.invert.blocks with
    | nil => rfl
    | cons r rs =>
      exfalso
      have hw : WellSigned r := hwf'.1 r (by rw [hbl]; simp)
      have hmem : r.start ∈ blocksEnum fs.invert.blocks := by
        rw [hbl]
        simp only [blocksEnum, List.flatMap_cons, List.mem_append]
        left
        have := rng_head r hw
        cases hre : rngEnum r with
        | nil => rw [hre] at this; simp at this
        | cons a t => rw [hre] at this; simp at this; subst this; simp
      rw [← blocks_iter _ hwf'] at hmem
      have : r.start ∈ fs.invert.frames := hmem
      rw [hfr, hc] at this
      simp at this
  rw [invert_frange, ← invert_blocks, hb]; rfl

/-- Normalize is idempotent (as a frame list, and hence as a frame set). -/
theorem C08_idempotent (txt : Bytes) (fs : FrameSet) (h : FrameSet.parse txt = .ok fs)
    (hne : fs.frames ≠ []) :
    fs.normalize.normalize.frames = fs.normalize.frames := by
  obtain ⟨hfr, hwf'⟩ := C08_normalize txt fs h hne
  have hb' : fs.normalize.blocks ≠ [] := by
    intro hnil
    have : fs.normalize.frames = [] := by show Blocks.iter fs.normalize.blocks = []; rw [hnil]; rfl
    rw [hfr] at this
    cases hL : fs.frames with
    | nil => exact hne hL
    | cons a t =>
      have : a ∈ sortedSet fs.frames := (mem_sortedSet fs.frames a).mpr (by rw [hL]; simp)
      simp_all
  obtain ⟨hwf'', hen⟩ := normalized_sorted fs.normalize.blocks hwf' hb'
  have e : blocksEnum fs.normalize.blocks = sortedSet fs.frames := by
    rw [← blocks_iter _ hwf']; exact hfr
  have e2 : fs.normalize.normalize.frames = blocksEnum (Blocks.normalized fs.normalize.blocks false) := by
    rw [frames_def, normalize_blocks fs.normalize]; exact blocks_iter _ hwf''
  rw [e2, hen, e, hfr]
  exact sortedSet_idem fs.frames

/-- Normalize is order-insensitive: two accepted strings with the same members normalize to
    the same list. -/
theorem C08_order_insensitive (t1 t2 : Bytes) (f1 f2 : FrameSet)
    (h1 : FrameSet.parse t1 = .ok f1) (h2 : FrameSet.parse t2 = .ok f2)
    (hne : f1.frames ≠ []) (hsame : ∀ v, v ∈ f1.frames ↔ v ∈ f2.frames) :
    f1.normalize.frames = f2.normalize.frames := by
  have hne2 : f2.frames ≠ [] := by
    cases hL : f1.frames with
    | nil => exact absurd hL hne
    | cons a t =>
      have : a ∈ f2.frames := (hsame a).mp (by rw [hL]; simp)
      intro h0; rw [h0] at this; simp at this
  rw [(C08_normalize t1 f1 h1 hne).1, (C08_normalize t2 f2 h2 hne2).1]
  exact sortedSet_perm _ _ hsame

/-- non-vacuity -/
example : ∃ fs, FrameSet.parse "10-1x3,5".toList = .ok fs ∧ fs.frames = [10, 7, 4, 1, 5] ∧
    fs.normalize.frames = [1, 4, 5, 7, 10] ∧ fs.invert.frames = [2, 3, 6, 8, 9] := by
  refine ⟨_, rfl, ?_, ?_, ?_⟩ <;> decide

/-- the declarations of /repo this property's model and specification were written from are,
    on this run, the ones the model was last aligned with (digest of their comment- and
    layout-insensitive fingerprints, re-extracted by tools/gofacts) -/
theorem C08_source : Gfs.Gen.sourceDigestC08 = Gfs.expectedSourceDigestC08 := by decide

end Gfs.Props.C08
