/-
  C10 — pad characters and pad widths convert consistently in both pad styles.
-/
import GfsModel.Pad
import GfsModel.Sequence
import GfsSpec.SeqSpec
import GfsProofs.PadLemmas
import GfsGen.Facts
import GfsModel.ExpectedSrc

namespace Gfs.Props.C10
open Gfs Gfs.Spec Gfs.Proofs

/-- width → pad characters → width is the identity for every width n ≥ 1 (no upper bound),
    under each pad style -/
theorem C10_roundtrip (st : PadStyle) (n : Int) (h : 1 ≤ n) : padSize st (padChars st n) = n :=
  padSize_padChars st n h

/-- '#' counts 4 under the default style and 1 under hash1, '@' counts 1 — for every
    non-empty string over {#,@}, of any length -/
theorem C10_chars (st : PadStyle) (s : Bytes) (hne : s ≠ []) (h : ∀ c ∈ s, c = '#' ∨ c = '@') :
    padSize st s = (if st = .hash4 then 4 else 1) * (countChar '#' s : Int) + countChar '@' s :=
  padSize_chars st s hne h

/-- %0Nd and $FN count N (1 when N is absent or zero), the UDIM tokens count 4 -/
theorem C10_tokens (st : PadStyle) (s : Bytes) (t : PadTok) (h : classifyPad s = some t) :
    padSize st s = t.width st :=
  (padSize_classify st s t h).1

/-- switching the pad style of a sequence that has padding (width ≥ 1) rewrites its pad
    characters but never its pad width, so every frame path it produces is unchanged -/
theorem C10_style_switch (s : Seq) (st' : PadStyle) (h : 1 ≤ s.zfill) :
    (s.setPaddingStyle st').zfill = s.zfill ∧
    (∀ f, (s.setPaddingStyle st').frameInt f = s.frameInt f) ∧
    (s.frameSet.isSome → ∀ i, (s.setPaddingStyle st').index i = s.index i) ∧
    (s.setPaddingStyle st').pad = padChars st' s.zfill :=
  setStyle_keeps s st' h

/-- non-vacuity -/
example : padChars .hash4 8 = "##".toList ∧ padSize .hash4 "##".toList = 8 ∧
    padChars .hash1 3 = "###".toList ∧ padSize .hash1 "#@#".toList = 3 ∧
    padSize .hash4 "%04d".toList = 4 ∧ padSize .hash1 "$F".toList = 1 ∧
    padSize .hash4 "<UDIM>".toList = 4 := by decide

/-- the declarations of /repo this property's model and specification were written from are,
    on this run, the ones the model was last aligned with (digest of their comment- and
    layout-insensitive fingerprints, re-extracted by tools/gofacts) -/
theorem C10_source : Gfs.Gen.sourceDigestC10 = Gfs.expectedSourceDigestC10 := by decide

end Gfs.Props.C10
