/-
  C05 — listing a set of paths covers every file exactly once (exact cover).
-/
import GfsModel.ListSeqs
import GfsModel.SeqOps
import GfsProofs.ListLemmas
import GfsProofs.ListOrder
import GfsGen.Facts
import GfsModel.ExpectedSrc

namespace Gfs.Props.C05
open Gfs Gfs.Spec Gfs.Proofs Gfs.Proofs.Order

/-- the cleaned path of an input path, as (directory, file name) -/
def itemOf (p : Bytes) : FileItem := ⟨(pathSplit (pathClean p)).1, (pathSplit (pathClean p)).2⟩

/-- C05 (exact cover): given any list of paths whose cleaned forms are pairwise distinct and
    whose names are tame (`TameName`: frame token of at most 17 digits, not a negative zero —
    the recorded finding), FindSequencesInList with single files enabled returns sequences
    whose expanded frame paths are exactly the cleaned input paths that the hidden-files
    option selects: none dropped, none reported twice, none invented — whatever mix of
    directories, basenames, extensions, digit widths, leading zeros, signs, frameless and
    bare relative names, under either pad style. -/
theorem C05_cover_partial (paths : List Bytes) (o : ListOpts) (hs : o.single = true)
    (hd : (paths.map pathClean).Nodup)
    (ht : ∀ p ∈ paths, TameName (itemOf p).name) :
    ∃ seqs, findSequencesInList paths o = .ok seqs ∧
      List.Perm (expandSeqs seqs)
        (((paths.map itemOf).filter (visibleItem o)).map FileItem.path) ∧
      ∀ p, FileItem.path (itemOf p) = pathClean p := by
  obtain ⟨heq, hpath⟩ := findSequencesInList_items paths o
  have hd' : ((paths.map itemOf).map FileItem.path).Nodup := by
    have : (paths.map itemOf).map FileItem.path = paths.map pathClean := by
      rw [List.map_map]; apply List.map_congr_left; intro p _; exact hpath p
    rw [this]; exact hd
  have ht' : ∀ it ∈ paths.map itemOf, TameName it.name := by
    intro it hit
    obtain ⟨p, hp, rfl⟩ := List.mem_map.mp hit
    exact ht p hp
  obtain ⟨seqs, hseqs, hperm⟩ := cover (paths.map itemOf) o hs hd' ht'
  refine ⟨seqs, ?_, hperm, hpath⟩
  rw [heq]; exact hseqs

/-- Without the single-files option the result is that same result minus the entries that
    are not numbered sequences. -/
theorem C05_no_single (paths : List Bytes) (o : ListOpts)
    (ht : ∀ p ∈ paths, TameName (itemOf p).name) :
    ∃ all, findSequencesInList paths { o with single := true } = .ok all ∧
      findSequencesInList paths { o with single := false } = .ok (all.filter isNumbered) := by
  have ht' : ∀ it ∈ paths.map itemOf, TameName it.name := by
    intro it hit
    obtain ⟨p, hp, rfl⟩ := List.mem_map.mp hit
    exact ht p hp
  obtain ⟨all, h1, h2⟩ := no_single (paths.map itemOf) o ht'
  refine ⟨all, ?_, ?_⟩
  · rw [(findSequencesInList_items paths _).1]; exact h1
  · rw [(findSequencesInList_items paths _).1]; exact h2

/-- Hidden names appear only with the hidden-files option: without it they do not influence
    the result at all. -/
theorem C05_hidden (items : List FileItem) (o : ListOpts) (hh : o.hidden = false) :
    findInItems items o none =
      findInItems (items.filter (fun it => !isPrefixOf ['.'] it.name)) o none :=
  hidden_ignored items o hh

/-- the listing never fails -/
theorem C05_total (o : ListOpts) (items : List FileItem) :
    ∃ r, scanItems o none items [] [] = .ok r := scanItems_ok o items [] []

/-- "the files of each basename/extension share one digit width": any two listed files (not
    skipped as hidden) that the optional-frame pattern reads with the same directory, basename
    and extension have frame tokens of the same length -/
def OneWidthPerKey (o : ListOpts) (paths : List Bytes) : Prop := Uniform o (paths.map itemOf)

/-- C05, last clause: under that condition the result — as a set of sequences (hence of
    sequence strings) — does not depend on the order of the input list, for every permutation,
    every option subset and both pad styles; and the listing does not fail. -/
theorem C05_order (paths paths' : List Bytes) (o : ListOpts) (hperm : paths.Perm paths')
    (hU : OneWidthPerKey o paths) :
    ∃ r r', findSequencesInList paths o = .ok r ∧ findSequencesInList paths' o = .ok r' ∧
      (∀ s, s ∈ r ↔ s ∈ r') ∧ (∀ t, t ∈ r.map Seq.str ↔ t ∈ r'.map Seq.str) := by
  obtain ⟨r, r', h1, h2, h3⟩ :=
    findInItems_order o (paths.map itemOf) (paths'.map itemOf) (hperm.map itemOf) hU
  refine ⟨r, r', h1, h2, h3, ?_⟩
  intro t
  simp only [List.mem_map]
  constructor
  · rintro ⟨s, hs, rfl⟩; exact ⟨s, (h3 s).1 hs, rfl⟩
  · rintro ⟨s, hs, rfl⟩; exact ⟨s, (h3 s).2 hs, rfl⟩

/-- non-vacuity: two keys, one width each, a frameless and a hidden file -/
example : OneWidthPerKey { single := true, hidden := false, style := .hash4 }
    ["/d/a.01.x".toList, "/d/a.02.x".toList, "/d/b.5.y".toList, "/d/notes".toList, "/d/.h.1.x".toList] := by
  unfold OneWidthPerKey Uniform
  decide

/-- the declarations of /repo this property's model and specification were written from are,
    on this run, the ones the model was last aligned with (digest of their comment- and
    layout-insensitive fingerprints, re-extracted by tools/gofacts) -/
theorem C05_source : Gfs.Gen.sourceDigestC05 = Gfs.expectedSourceDigestC05 := by decide

end Gfs.Props.C05
