/-
  C01 — frame-range strings expand to exactly the frame list the shorthand denotes;
  everything else is rejected.  Property theorems only.
-/
import GfsModel.FrameSet
import GfsSpec.Denote
import GfsSpec.Grammar
import GfsSpec.WF
import GfsProofs.ParseSyn
import GfsProofs.ParseSem
import GfsGen.Facts
import GfsModel.ExpectedSrc

namespace Gfs.Props.C01
open Gfs Gfs.Spec Gfs.Proofs

/-- C01 (expansion): for every component list of the documented shorthand — any number of
    components, any sign, direction, step magnitude and sign, modifier, position, leading
    zeros, and any placement of spaces / '#' / '@' in the text — whose steps are non-zero
    and whose numbers fit an int, parsing succeeds and yields exactly the denoted list:
    each component expanded in its own direction with its own step, concatenated left to
    right, a frame kept only at its first occurrence. -/
theorem C01_expand (cs : List Comp) (txt : Bytes) (hne : cs ≠ [])
    (ht : RangeText cs txt) (hv : ∀ c ∈ cs, c.valid) :
    ∃ fs, FrameSet.parse txt = .ok fs ∧ fs.frames = denote cs ∧ WF fs.blocks := by
  obtain ⟨parts, hparts, hstrip⟩ := ht
  obtain ⟨ms, hms, hrel⟩ := frameRangeMatches_complete cs parts txt hne hparts hstrip
  obtain ⟨bl, hbl, hwf, henum⟩ := handleMatches_valid [] wf_nil cs ms hrel hv
  refine ⟨⟨txt, bl⟩, ?_, ?_, hwf⟩
  · simp [FrameSet.parse, hms, hbl, bind, Except.bind, pure, Except.pure]
  · show Blocks.iter bl = denote cs
    rw [blocks_iter bl hwf, henum, denote_eq_fold]
    rfl

/-- C01 (rejection): a string is accepted exactly when it is a text of some non-empty
    component list of the grammar whose steps are non-zero and whose numbers all fit an int.
    Hence strings outside the grammar, with a zero step, or with a numeral that does not fit
    are rejected with an error. -/
theorem C01_accept_iff (txt : Bytes) :
    (∃ fs, FrameSet.parse txt = .ok fs) ↔
    ∃ cs, cs ≠ [] ∧ RangeText cs txt ∧ ∀ c ∈ cs, c.valid := by
  constructor
  · rintro ⟨fs, hfs⟩
    unfold FrameSet.parse at hfs
    cases hm : frameRangeMatches txt with
    | error e => simp [hm, bind, Except.bind] at hfs
    | ok ms =>
      obtain ⟨cs, hne, hrt, hrel⟩ := frameRangeMatches_sound txt ms hm
      refine ⟨cs, hne, hrt, ?_⟩
      intro c hc
      apply Classical.byContradiction
      intro hnv
      obtain ⟨e, he⟩ := handleMatches_invalid [] cs ms hrel ⟨c, hc, hnv⟩
      simp [hm, he, bind, Except.bind] at hfs
  · rintro ⟨cs, hne, hrt, hv⟩
    obtain ⟨fs, hfs, _, _⟩ := C01_expand cs txt hne hrt hv
    exact ⟨fs, hfs⟩

/-- Length agrees with the denotation. -/
theorem C01_len (cs : List Comp) (txt : Bytes) (hne : cs ≠ [])
    (ht : RangeText cs txt) (hv : ∀ c ∈ cs, c.valid) :
    ∃ fs, FrameSet.parse txt = .ok fs ∧ fs.len = (denote cs).length := by
  obtain ⟨fs, hfs, hfr, hwf⟩ := C01_expand cs txt hne ht hv
  refine ⟨fs, hfs, ?_⟩
  show Blocks.len fs.blocks = _
  rw [blocks_len fs.blocks hwf, ← hfr]
  show _ = ((Blocks.iter fs.blocks).length : Int)
  rw [blocks_iter fs.blocks hwf]

/-- the declarations of /repo this property's model and specification were written from are,
    on this run, the ones the model was last aligned with (digest of their comment- and
    layout-insensitive fingerprints, re-extracted by tools/gofacts) -/
theorem C01_source : Gfs.Gen.sourceDigestC01 = Gfs.expectedSourceDigestC01 := by decide

end Gfs.Props.C01
