/-
  C03 — a sequence string decomposes losslessly into dir, base, range, pad, ext.
-/
import GfsModel.Sequence
import GfsSpec.SeqSpec
import GfsProofs.SplitLemmas
import GfsModel.Seqinfo
import GfsGen.Facts
import GfsModel.ExpectedSrc

namespace Gfs.Props.C03
open Gfs Gfs.Spec Gfs.Proofs

/-- C03: for every tuple (dir, base, range, pad token, ext, pad style) of the unambiguous
    domain (`Spec.unambig`: a decidable predicate — see GfsSpec/SeqSpec.lean), parsing the
    concatenated string returns exactly those five components, the pad width that token
    denotes under the chosen style, and the frame set of that range. -/
theorem C03_decompose (st : PadStyle) (dir base rng pad ext : Bytes)
    (h : unambig dir base rng pad ext = true) :
    ∃ t, classifyPad pad = some t ∧
    Seq.parse st (dir ++ base ++ rng ++ pad ++ ext) =
      .ok ⟨base, dir, ext, pad, t.width st, (FrameSet.parse rng).toOption, st⟩ :=
  parse_unambig st dir base rng pad ext h

/-- … and String() (hence Format with {{dir}}{{base}}{{frange}}{{pad}}{{ext}}, which the model
    defines as the same concatenation) reproduces the input byte for byte. -/
theorem C03_roundtrip (st : PadStyle) (dir base rng pad ext : Bytes)
    (h : unambig dir base rng pad ext = true) :
    ∃ s, Seq.parse st (dir ++ base ++ rng ++ pad ++ ext) = .ok s ∧
      s.str = dir ++ base ++ rng ++ pad ++ ext :=
  str_unambig st dir base rng pad ext h

/-- Format with the documented template: evaluated by the template model (literal text and
    niladic `{{fn}}` actions, GfsModel.Seqinfo) it IS String(), for every sequence — so the
    round trip above also holds for `Format("{{dir}}{{base}}{{frange}}{{pad}}{{ext}}")`. -/
theorem C03_format_default (s : Seq) :
    Seqinfo.format s "{{dir}}{{base}}{{frange}}{{pad}}{{ext}}".toList = some s.str := by
  simp [Seqinfo.format, Seqinfo.formatAux, Seqinfo.templateFn, Seq.str, List.takeWhile, List.dropWhile]

/-- non-vacuity: basenames ending in range-directive letters, multi-part and digit-bearing
    extensions, negative and multi-component ranges, empty dir / range / ext are in the domain -/
example : unambig "/a/b/".toList "shot_x".toList "-5-10x2,20".toList "#".toList ".tar.gz".toList = true ∧
    unambig [] "take:".toList [] "%04d".toList ".1x".toList = true ∧
    unambig "rel/".toList "list,".toList "1-3".toList "$F2".toList [] = true := by decide

/-- the declarations of /repo this property's model and specification were written from are,
    on this run, the ones the model was last aligned with (digest of their comment- and
    layout-insensitive fingerprints, re-extracted by tools/gofacts) -/
theorem C03_source : Gfs.Gen.sourceDigestC03 = Gfs.expectedSourceDigestC03 := by decide

end Gfs.Props.C03
