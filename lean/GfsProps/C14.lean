/-
  C14 — huge ranges are answered arithmetically, never by enumeration.

  What is proved: (1) the closed forms are correct at ANY magnitude (C13/C02 over ℤ; here the
  arithmetic description `Spec.Closed` is shown equal to the enumerated specification);
  (2) on the property's domain no intermediate value of the accessors leaves int64.
  What is NOT provable here and is measured by the `huge` operation instead (partial): time
  and allocation of the Go code; they are bounded per op (`cheap`), and the loop structure
  of the closed-form functions is re-extracted from the source on every run
  (GfsGen.Facts, theorem `C14_loop_structure`).
-/
import GfsModel.Ranges
import GfsSpec.Closed
import GfsProofs.ClosedLemmas
import GfsProps.C13
import GfsGen.Facts
import GfsModel.Expected
import GfsModel.ExpectedSrc

namespace Gfs.Props.C14
open Gfs Gfs.Spec Gfs.Proofs

/-- a single plain or stepped range, built the way the parser builds it (first block):
    its accessors are the closed forms, for all integers -/
theorem C14_closed_forms (a b n : Int) (hn : 0 < n) :
    let r := mkRng a b (if a ≤ b then n else -n)
    r.len = cLen a b n ∧ r.fin = cLast a b n ∧
    (∀ i, r.value i = (match cValue a b n i with | some v => .ok v | none => .error .index)) ∧
    (∀ v, r.contains v = cHas a b n v) ∧
    (∀ v, r.index v = cIndex a b n v) := by
  intro r
  have hag : C13.Agrees a b (if a ≤ b then n else -n) := by
    unfold C13.Agrees
    by_cases h : a ≤ b
    · rw [if_pos h]; exact Or.inr (Or.inl ⟨h, hn⟩)
    · rw [if_neg h]; exact Or.inr (Or.inr ⟨by omega, by omega⟩)
  have hstep : (mkRng a b (if a ≤ b then n else -n)).step.natAbs = n := by
    unfold mkRng
    by_cases h : a ≤ b
    · rw [if_pos h]
      have : n ≠ 0 := by omega
      simp only [this, if_false]; omega
    · rw [if_neg h]
      have : -n ≠ 0 := by omega
      simp only [this, if_false]; omega
  have hb := C13.C13_block a b _ hag
  simp only [hstep] at hb
  obtain ⟨hit, hlen, _, hfin, _, _, _, hcon, hval, hidx⟩ := hb
  have hr : r = mkRng a b (if a ≤ b then n else -n) := rfl
  rw [hr]
  refine ⟨?_, ?_, ?_, ?_, ?_⟩
  · rw [hlen, closed_len a b n hn]
  · have h1 := closed_last a b n hn
    rw [hfin] at h1
    exact (Option.some.inj h1)
  · intro i; rw [hval i, closed_value a b n hn i]; cases cValue a b n i <;> rfl
  · intro v
    have h1 := hcon v
    have h2 := closed_has a b n hn v
    cases hc : (mkRng a b (if a ≤ b then n else -n)).contains v <;> cases hh : cHas a b n v
    · rfl
    · exact absurd (h1.mpr (h2.mp hh)) (by rw [hc]; simp)
    · exact absurd (h2.mpr (h1.mp hc)) (by rw [hh]; simp)
    · rfl
  · intro v; rw [hidx v, closed_index a b n hn v]

/-- on the domain of the property (|A|,|B| ≤ 10^13, 1 ≤ |N| ≤ 10^6, index in [-2,len+2],
    value within 2·10^6 of the range) no integer sub-expression evaluated by End, Len, Value,
    Index, Contains leaves int64 -/
theorem C14_no_overflow (a b n idx v : Int)
    (ha : -10000000000000 ≤ a ∧ a ≤ 10000000000000)
    (hb : -10000000000000 ≤ b ∧ b ≤ 10000000000000)
    (hn : 1 ≤ n ∧ n ≤ 1000000)
    (hidx : -2 ≤ idx ∧ idx ≤ (mkRng a b (if a ≤ b then n else -n)).len + 2)
    (hv : -10000002000000 ≤ v ∧ v ≤ 10000002000000) :
    ∀ x ∈ intermediates (mkRng a b (if a ≤ b then n else -n)) idx v, minInt64 ≤ x ∧ x ≤ maxInt64 :=
  intermediates_in_range a b n idx v ha hb hn hidx hv

/-- the loop structure of the closed-form functions, re-extracted from /repo on this run,
    is the one the model was written from: no loop in the InclusiveRange accessors, loops over
    `l.blocks` only in the InclusiveRanges accessors, and AppendUnique tests for an empty
    block list before its candidate loop -/
theorem C14_loop_structure : Gfs.Gen.loopFacts = Gfs.expectedLoopFacts := by decide

/-- the declarations of /repo this property's model and specification were written from are,
    on this run, the ones the model was last aligned with (digest of their comment- and
    layout-insensitive fingerprints, re-extracted by tools/gofacts) -/
theorem C14_source : Gfs.Gen.sourceDigestC14 = Gfs.expectedSourceDigestC14 := by decide

end Gfs.Props.C14
