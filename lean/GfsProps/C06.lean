/-
  C06 — scanning a directory equals listing its non-directory entries.
  The file system is a parameter of the model (a directory is a value); what the kernel
  reports for a real directory is exercised by the correspondence run on materialised
  temp directories, not proved (partial).
-/
import GfsModel.Disk
import GfsProofs.DiskLemmas
import GfsProofs.ListLemmas
import GfsGen.Facts
import GfsModel.ExpectedSrc

namespace Gfs.Props.C06
open Gfs Gfs.Spec Gfs.Proofs

/-- C06: FindSequencesOnDisk(dir) returns exactly what the listing returns for the items
    (dirPrefix dir, name) of dir's entries that are regular files or symlinks to
    non-directories — sub-directories and symlinks to directories are never reported — with
    the same options having the same meaning; for every spelling of the argument. -/
theorem C06_equiv (entries : List Entry) (arg : Bytes) (o : ListOpts)
    (hd : ∀ e ∈ entries, e.kind ≠ .dangling) :
    findSequencesOnDisk (some entries) arg o =
      findInItems ((entries.filter keptEntry).map fun e => ⟨dirPrefix arg, e.name⟩) o none :=
  scanDir_eq entries arg o none hd

/-- ListFiles(dir) is the same with the single-files option. -/
theorem C06_listFiles (d : DirSpec) (arg : Bytes) :
    listFiles d arg = findSequencesOnDisk d arg { single := true, hidden := false, style := .hash4 } :=
  listFiles_eq d arg

/-- A directory that cannot be read, or a dangling symlink in it, yields an error rather
    than a partial listing. -/
theorem C06_errors (d : DirSpec) (arg : Bytes) (o : ListOpts)
    (h : d = none ∨ ∃ entries, d = some entries ∧ ∃ e ∈ entries, e.kind = .dangling) :
    ∃ err, findSequencesOnDisk d arg o = .error err :=
  scanDir_errors d arg o none h

/-- Every reported sequence lies directly under dir: it carries the directory prefix
    Clean(dir) + separator. -/
theorem C06_under_dir (entries : List Entry) (arg : Bytes) (o : ListOpts) (seqs : List Seq)
    (hd : ∀ e ∈ entries, e.kind ≠ .dangling)
    (h : findSequencesOnDisk (some entries) arg o = .ok seqs) :
    ∀ s ∈ seqs, s.dir = dirPrefix arg ∧ isSuffixOf ['/'] s.dir = true := by
  rw [C06_equiv entries arg o hd] at h
  intro s hs
  obtain ⟨it, hit, hdir⟩ := findInItems_dirs _ o seqs h s hs
  obtain ⟨e, _, rfl⟩ := List.mem_map.mp hit
  exact ⟨hdir, by rw [hdir]; exact dirPrefix_sep arg⟩

/-- … and, by the exact-cover theorem of C05, the expansion of a scan with single files is
    exactly the selected non-directory entries (tame names, distinct by construction). -/
theorem C06_cover_partial (entries : List Entry) (arg : Bytes) (o : ListOpts) (hs : o.single = true)
    (hd : ∀ e ∈ entries, e.kind ≠ .dangling)
    (hn : ((entries.filter keptEntry).map (·.name)).Nodup)
    (ht : ∀ e ∈ entries, TameName e.name) :
    ∃ seqs, findSequencesOnDisk (some entries) arg o = .ok seqs ∧
      List.Perm (expandSeqs seqs)
        ((((entries.filter keptEntry).map fun e => (⟨dirPrefix arg, e.name⟩ : FileItem)).filter
            (visibleItem o)).map FileItem.path) := by
  rw [C06_equiv entries arg o hd]
  apply cover _ o hs
  · rw [List.map_map]
    have : (FileItem.path ∘ fun e : Entry => (⟨dirPrefix arg, e.name⟩ : FileItem)) =
        fun e => dirPrefix arg ++ e.name := by funext e; rfl
    rw [this]
    have h2 : (entries.filter keptEntry).map (fun e => dirPrefix arg ++ e.name) =
        ((entries.filter keptEntry).map (·.name)).map (dirPrefix arg ++ ·) := by
      rw [List.map_map]; rfl
    rw [h2]
    unfold List.Nodup at hn ⊢
    rw [List.pairwise_map]
    exact hn.imp (fun hne hab => hne (List.append_cancel_left hab))
  · intro it hit
    obtain ⟨e, he, rfl⟩ := List.mem_map.mp hit
    exact ht e (List.mem_filter.mp he).1

/-- the declarations of /repo this property's model and specification were written from are,
    on this run, the ones the model was last aligned with (digest of their comment- and
    layout-insensitive fingerprints, re-extracted by tools/gofacts) -/
theorem C06_source : Gfs.Gen.sourceDigestC06 = Gfs.expectedSourceDigestC06 := by decide

end Gfs.Props.C06
