/-
  C17 — seqls lists every selected file of the requested trees exactly once, every run.

  Proved here, for the channel pipeline of manager.go as a transition system with any number
  W ≥ 1 of workers, any work items and EVERY schedule: conservation, absence of deadlock,
  termination, no send on a closed channel, the final printed multiset, isolation of items
  that yield nothing; and for the recursive walk behind -r (the fastwalk callback with its cycle
  cache): it terminates on EVERY tree, cyclic and aliased directory links included — beyond a
  depth computed from the tree more fuel changes nothing.  What each work item yields is the Disk model (C06 / C07), whose exact
  cover is C05 / C06.  Not provable here (partial): fastwalk's internal work distribution
  (assumed: callback once per entry, returns after all callbacks), scheduler fairness, the
  schedules of the real binary (sampled with GOMAXPROCS 1 / 2 / 16).
-/
import GfsModel.Seqls
import GfsModel.Expected
import GfsGen.Facts
import GfsProofs.SeqlsLemmas
import GfsProofs.WalkTerm
import GfsModel.ExpectedSrc

namespace Gfs.Props.C17
open Gfs.Seqls Gfs.Proofs Gfs.Proofs.SeqlsP

/-- conservation: printed ⊎ held by workers ⊎ yield of the unsent items = yield of all items,
    in every reachable state of every schedule -/
theorem C17_conservation (seqs dirs : List Item) (w : Nat) (st : State) (h : Reach seqs dirs w st) :
    List.Perm (st.printed ++ heldLines st.workers ++ expectedLines (st.pendSeqs ++ st.pendDirs))
      (expectedLines (seqs ++ dirs)) := conservation seqs dirs w st h

/-- no deadlock: every reachable non-final state has an enabled step -/
theorem C17_no_deadlock (seqs dirs : List Item) (w : Nat) (hw : 1 ≤ w) (st : State)
    (h : Reach seqs dirs w st) (hnf : ¬ Final st) : ∃ st', Step st st' :=
  no_deadlock seqs dirs w hw st h hnf

/-- termination: a natural-number measure strictly decreases with every step -/
theorem C17_terminates (st st' : State) (h : Step st st') : measure st' < measure st :=
  measure_decreases st st' h

/-- nothing is sent on a closed channel -/
theorem C17_no_send_on_closed (seqs dirs : List Item) (w : Nat) (st : State) (h : Reach seqs dirs w st) :
    (st.inputsClosed = true → st.pendSeqs = [] ∧ st.pendDirs = []) ∧
    (st.outClosed = true → ∀ wk ∈ st.workers, wk = .done) := no_send_on_closed seqs dirs w st h

/-- the printed multiset of every finished run is the expected one — the same on every run,
    whatever the worker scheduling and the number of workers W ≥ 1 -/
theorem C17_output (seqs dirs : List Item) (w : Nat) (hw : 1 ≤ w) (st : State)
    (h : Reach seqs dirs w st) (hf : Final st) :
    List.Perm st.printed (expectedLines (seqs ++ dirs)) :=
  final_output_of_pos seqs dirs w hw st h hf

/-- (the hypothesis W ≥ 1 is needed: with zero workers the closer may close the output at once) -/
theorem C17_output_needs_workers :
    ¬ ∀ (seqs dirs : List Item) (w : Nat) (st : State), Reach seqs dirs w st → Final st →
      List.Perm st.printed (expectedLines (seqs ++ dirs)) := final_output_false_for_zero_workers

/-- a bad argument (an item that yields nothing) never alters what the others print -/
theorem C17_bad_arg_isolated (seqs dirs : List Item) (bad : Item) (hb : bad.result = none) :
    expectedLines (seqs ++ bad :: dirs) = expectedLines (seqs ++ dirs) ∧
    expectedLines (bad :: seqs ++ dirs) = expectedLines (seqs ++ dirs) := bad_item_isolated seqs dirs bad hb

/-- the recursive walk terminates on every tree, whatever its links: `walkBound t` = (number of
    directory links + 1) × (longest path + 2) bounds the nesting of the calls (each nested call
    either descends to a longer real path or follows a link whose target is recorded for the
    first time), so the walk with that much fuel — the one the protocol driver runs — is the walk
    with any larger amount of fuel, i.e. the fuel-free recursion of the Go code. -/
theorem C17_walk_terminates (t : Tree) (all : Bool) (seen : List Bytes) (shown real : Bytes) (k : Nat) :
    walk t all (walkBound t + k) seen shown real = walk t all (walkBound t) seen shown real :=
  WalkTerm.walk_fuel_irrelevant t all seen shown real k

/-- the cycle cache only grows: a target recorded once stays recorded for the rest of the walk
    (why a link met again — through a cycle or an alias — is listed but not followed) -/
theorem C17_walk_cache_grows (t : Tree) (all : Bool) (fuel : Nat) (seen : List Bytes) (shown real : Bytes) :
    ∀ x ∈ seen, x ∈ (walk t all fuel seen shown real).2 :=
  WalkTerm.walk_seen_sub t all fuel seen shown real

/-- without -a, no directory with a hidden name (longer than one byte, starting with '.') is
    ever listed — a sub-directory, a link, or the starting point itself, at any depth, on any tree -/
theorem C17_walk_no_hidden (t : Tree) (fuel : Nat) (seen : List Bytes) (shown real : Bytes) :
    ∀ p ∈ (walk t false fuel seen shown real).1, ¬ WalkTerm.hiddenName (baseName p.1) :=
  WalkTerm.walk_no_hidden t fuel seen shown real

/-- what is listed is the starting directory, a sub-directory node, or the target of a directory
    link: files and links to files are never walked into -/
theorem C17_walk_lists_dirs (t : Tree) (all : Bool) (fuel : Nat) (seen : List Bytes) (shown real : Bytes) :
    ∀ p ∈ (walk t all fuel seen shown real).1,
      p.2 = real ∨ (∃ n ∈ t, n.kind = .dir ∧ n.path = p.2) ∨ p.2 ∈ targets t :=
  WalkTerm.walk_lists_dirs t all fuel seen shown real

/-- a cyclic tree (show/shot/up -> show, next to a link to a flat directory): the walk ends, and
    lists the second pass through the cycle without following its links again -/
example :
    let t : Tree := [⟨"show".toList, .dir⟩, ⟨"show/shot".toList, .dir⟩, ⟨"pub".toList, .dir⟩,
      ⟨"show/shot/up".toList, .linkDir "show".toList⟩, ⟨"show/shot/ln".toList, .linkDir "pub".toList⟩]
    (walk t false (walkBound t) [] "show".toList "show".toList).1.map (·.1) =
      ["show".toList, "show/shot".toList, "show/shot/up".toList, "show/shot/up/shot".toList,
       "show/shot/up/shot/up".toList, "show/shot/up/shot/ln".toList, "show/shot/ln".toList] := by
  decide +kernel

/-- the goroutine / channel skeleton of the work manager, re-extracted from manager.go on this
    run, is the one the transition system was written from -/
theorem C17_skeleton : Gfs.Gen.seqlsSkeleton = Gfs.expectedSeqlsSkeleton := by decide +kernel

/-- the declarations of /repo this property's model and specification were written from are,
    on this run, the ones the model was last aligned with (digest of their comment- and
    layout-insensitive fingerprints, re-extracted by tools/gofacts) -/
theorem C17_source : Gfs.Gen.sourceDigestC17 = Gfs.expectedSourceDigestC17 := by decide

end Gfs.Props.C17
