/-
  C11 — zero-padding a range string changes nothing but leading zeros.
-/
import GfsModel.Pad
import GfsSpec.Grammar
import GfsProofs.PadRangeLemmas
import GfsGen.Facts
import GfsModel.ExpectedSrc

namespace Gfs.Props.C11
open Gfs Gfs.Spec Gfs.Proofs

/-- widths below 2 leave the text unchanged -/
theorem C11_small_width (s : Bytes) (w : Int) (h : w < 2) : padFrameRange s w = s :=
  padFrameRange_small s w h

/-- the same comma-separated components in the same order, each padded on its own -/
theorem C11_components (s : Bytes) (w : Int) (h : 2 ≤ w) :
    splitOn ',' (padFrameRange s w) = (splitOn ',' s).map (padPart w) :=
  padFrameRange_parts s w h

/-- a component that is not a range is passed through in its place; a component that is a
    range remains the same component (same numbers, same modifier, step untouched) -/
theorem C11_component (w : Int) (part : Bytes) :
    (matchPart part = none → padPart w part = part) ∧
    (∀ c m, matchPart part = some m → MatchOf c m →
      ∃ m', matchPart (padPart w part) = some m' ∧ MatchOf c m' ∧ padPart w part = matchText m') :=
  padPart_spec w part

/-- every frame numeral is left-padded with zeros to at least the requested width (the sign
    counts), keeps its value, and numerals already that wide are unchanged -/
theorem C11_numeral (n : Int) (t : Bytes) (w : Int) (h : NumText n t) :
    NumText n (zfillString t w) ∧ (w ≤ (zfillString t w).length ∨ zfillString t w = t) ∧
    ((t.length : Int) ≥ w → zfillString t w = t) ∧
    ((t.length : Int) < w → ((zfillString t w).length : Int) = w) :=
  zfillString_numText n t w h

/-- padding is idempotent -/
theorem C11_idempotent (s : Bytes) (w : Int) :
    padFrameRange (padFrameRange s w) w = padFrameRange s w :=
  padFrameRange_idem s w

/-- the padded text parses to exactly the same frame set as the input, or both are
    rejected — for every text (valid, partially invalid, with spaces or pad characters) and
    every width -/
theorem C11_same_frames (s : Bytes) (w : Int) :
    (∀ fs, FrameSet.parse s = .ok fs →
        ∃ fs', FrameSet.parse (padFrameRange s w) = .ok fs' ∧ fs'.frames = fs.frames) ∧
    ((∃ e, FrameSet.parse s = .error e) → ∃ e, FrameSet.parse (padFrameRange s w) = .error e) := by
  obtain ⟨h1, h2⟩ := padFrameRange_same_frames s w
  refine ⟨?_, h2⟩
  intro fs hfs
  obtain ⟨fs', hp, hb⟩ := h1 fs hfs
  exact ⟨fs', hp, by show Blocks.iter fs'.blocks = Blocks.iter fs.blocks; rw [hb]⟩

/-- non-vacuity: the repaired defect D5 -/
example : padFrameRange "1,foo,-3-10x2".toList 4 = "0001,foo,-003-0010x2".toList := by decide

/-- the declarations of /repo this property's model and specification were written from are,
    on this run, the ones the model was last aligned with (digest of their comment- and
    layout-insensitive fingerprints, re-extracted by tools/gofacts) -/
theorem C11_source : Gfs.Gen.sourceDigestC11 = Gfs.expectedSourceDigestC11 := by decide

end Gfs.Props.C11
