import GfsSpec.Enum
import GfsSpec.Denote
