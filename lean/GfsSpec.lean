import GfsSpec.Enum
import GfsSpec.Denote
import GfsSpec.WF
import GfsSpec.Grammar
import GfsSpec.SeqSpec
